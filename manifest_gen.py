#!/usr/bin/env python3
"""Regenerates MANIFEST.json from the table below (kept in one place so the file always validates)."""
import json, os
HERE = os.path.dirname(os.path.abspath(__file__))
ALL = ["C%02d" % i for i in range(1, 21)]

CHECKS = {
 "C12": dict(
  engine="metamorphic",
  technique="metamorphic relation between two real `lian run` executions: P and edit(P) are analysed in their own forked children; call edges (call_paths_p3), source-level bindings (s2space_p1) and taint flows (taint_data_flow.json) are normalised to (file, line, name) terms and compared through the line/name maps of nine statically proven editors; generated Python/JavaScript programs are additionally executed under CPython/node; three recording wrappers classify observed differences by mechanism; multi-file generated bases (from lib import f, import lib, ES modules) so that move-to-file on an already-imported function, or two moves of the same function, create a re-export chain; Java and PHP class-hierarchy templates with inherited-method calls where the reorder edit may put a subclass before its superclass (Java permutations confirmed valid and behaviour-preserving with javac/java)",
  category="exploration",
  text="Edits: blank/comment lines, consistent rename of a local / parameter / function / class / method, no-op statement, reordering of independent top-level definitions, moving a function into another file and importing it; sequences of 1-3 edits. Every edit is proven meaning-preserving before use (Python: ast equality modulo the edit, symtable agreement for renames, no definition-time dependency for reorder/move; other languages: tree-sitter token sequences equal modulo the edit, no ERROR node) and generated Python/JavaScript pairs are executed and must behave identically (else dropped and counted). Bases: generated flow programs in Python and JavaScript, G-py programs with sinks, programs with an `import a, b` line, 8 hand templates (Java, Go, C, PHP, TypeScript, JavaScript), repo corpus files; every base is analysed twice and dropped if its two runs differ. A failing multi-edit pair is re-run with each single edit alone. Quick ~140 pairs from ~230 runs, thorough ~3140 pairs from ~4600 runs; floors on pairs per language/origin and on pairs with non-empty call edges / bindings / flows.",
  note="Nothing is claimed beyond the generated, template and corpus programs; templates in five languages are not executed; results on inserted lines are excluded; absolute line correctness (C10) and the numbering of unresolved symbols are outside the relation. TypeScript and JavaScript classes are never permuted across an extends edge (class declarations are not hoisted there: node ReferenceError); PHP subclass-first validity rests on PHP's hoisting rule and is not executed; the `import lib; lib.f()` form yields no resolved call edge even in the base, so it is trivially invariant. One open mechanism (P3 add_arg_to_param_edge matches state nodes by frame-local index) masks taint-flow differences only when the recorded argument->parameter edge sets of the two runs differ.",
  design="DESIGN.md §C12"),
 "C07": dict(
  engine="runner",
  technique="runtime monitoring with an executable oracle: CPython sys.setprofile call events (node for a JavaScript rendering) of generated call-kind programs compared with the call paths lian stores, the loader's callee/caller API and P3 frames recorded by wrappers, one project per forked `semantic` run",
  category="exploration",
  text="Generated Python projects of 1-4 files (optional package directory; entry = %unit_init or a configured function; one call per line, labelled with its call kind and provenance): direct, from-import with/without alias, m.f / pk.m.f / aliased module, constructors (own, inherited, via import), receiver / inherited / overridden / self-dispatched methods in 2-3 level hierarchies, static and class methods, methods on parameters and on factory results, bound methods as values, callbacks, returned functions and closures, functions held in variables / lists / dicts / fields, recursion, mutual recursion, nested functions, calls inside if/else/for/while/try/finally; one project in ten with --enable-p2; the same generator rendered as single-file JavaScript with node as oracle. Per observed call event (entry, caller, call line, callee): (a) a stored call path from that entry contains the edge, (b) get_callees/get_callers agree, (c) a P3 frame for the callee under that call site was analysed. Cascades are attributed to their root. Quick 160 + 36 projects (~3.5k events), thorough 3000 + 500 (~64k).",
  note="Trusted: CPython profile events / node tracing and the verified (file, line) -> GIR id join. 26 mechanism signatures are open known findings (module-attribute calls, base classes through module attributes, returned functions, function in field via self, super().__init__, self-dispatch to subclass overrides, p2 constructors...); a known mechanism explains only events of exactly that kind and provenance. JavaScript is single-file.",
  design="DESIGN.md §C07"),
 "C20": dict(
  engine="runner",
  technique="runtime monitoring with a restated-rule oracle: real `lian run` on generated mixed Python/JavaScript projects under 9 classes of entry rule sets, with recording wrappers on P3's start and frame analysis, cross-checked with semantic_p1/entry_points, the console 'Analyzing' lines and the taint output",
  category="exploration",
  text="Projects of 2-5 files in several directories (Python and JavaScript mixed in one run; recurring function names, class methods, nested functions, decorators -> attrs, top-level code, files named as in the repo's default entry.yaml; every method embeds one parameter-source -> sink flow) x rule sets {empty, initialiser only, by method name, by language incl. absent languages, by unit name, by unit path, by attribute, overlapping (also split over a second *-entry.yaml), the repo default}. Clauses: start set == rule-selected set (own restatement of the matching rule, evaluated over the project plus the extern mock units), nothing started twice, file/loader/console agree; every selected method has its own analysed frame even if nothing calls it; the reported flows are exactly the embedded flows of the methods reachable from what was started. Quick 40 projects x 6 rule sets, thorough 500 x 8.",
  note="Trusted: the restated matching rule in checks/c20.py (written from the settings format, attribute names chosen so that substring matching cannot matter), the generator's call structure (validated against CPython for the Python files). No defect was found on this workload.",
  design="DESIGN.md §C20"),
 "C08": dict(
  engine="runner",
  technique="runtime monitoring with an executable oracle: generated Python programs are executed by CPython under a tracing shim (per executed assignment: value / allocation line / member maps) and lian's abstract value of the same definition is read from the persisted P3 tables; wrappers on compute_two_states / strict_eval and exec audit events decide 'literal text is only data'; metamorphic literal replacement",
  category="exploration",
  text="G-values programs (int/str constants incl. strings with quotes, backslashes, operator characters and digit-only content; constant arithmetic, concatenation, repetition; allocation, field/element reads and writes, aliasing by copy and by parameter, helper calls and returns, branches on an opaque decision vector, loops run 0 or 1 times). Per executed definition: lian's value set contains the constant by value, or an object state of the same allocation site whose member maps cover recursively, or an explicit unknown state; the share of constant definitions covered by value must stay above a floor (non-vacuity). Literal-as-data: every text handed to an evaluator is compared with the operand data; replacing a hostile literal by a benign one of equal length must leave unaffected definitions, the sequence of analysed frames and the per-statement visit counts unchanged; folds predicted above 10^6 bits must not be entered. Plus two scripted families in about 60 % of programs: an object stored into a container by a callee and modified afterwards (own variable, alias, two levels, parameter out-effect), and helpers with two exits writing a parameter object's field through an alias or a nested setter under a decision; residual failures of shape 'callee object in a loop body modified later' are attributed structurally. Quick ~200 programs (~6k definitions, ~2.3k folds, ~190 metamorphic pairs), thorough ~3000 programs (~100k definitions).",
  note="Trusted: CPython, the tracing shim, the (file, line) -> GIR statement join and the reader of s2space_p3/stmt_status_p3 (validated against the live objects: persisted rows equal the last live save). Python frontend only. Loops are run at most once (quantifier). First definitions are judged on the assignment statement only (not the hoisted variable_decl row). Failures inside loops are attributed to the bounded-visits mechanism only when the same definition is covered once the worklist scheduling of proposed/C08-worklist-order.diff is patched in at run time; open known findings: cover:bounded-visits-in-loops, cover:member-of-member:parameter, cover:member-of-member:field-write-through-parameter, cover:callee-object-in-loop-body-modified-later.",
  design="DESIGN.md §C08"),
 "C09": dict(
  engine="runner",
  technique="runtime monitoring with an exact oracle: every decision vector of generated loop-free Python programs is executed by CPython, the set of concrete values at each probe point is collected and compared for EQUALITY with lian's abstract value set of the probed argument read from the persisted P3 tables",
  category="exploration",
  text="Loop-free G-values programs (int constants, one allocation per variable, aliasing by assignment, distinct field names, branches on d[i] with <= 6 decisions so that all 2^k vectors are feasible, helper functions called from several sites with different arguments, default / keyword arguments, constant binary operations). At every probe (a call of an unresolved function with the probed value) lian's set must equal the exact set over all vectors reaching the probe: an overwritten value retained, a value of another field / object / call site, a missing value or an unknown state is a difference. Features counted separately (overwrite, branch-join, field-vs-field, object-vs-object, call-site, nested call, callee field read/write, binary fold, ...). Plus the same two scripted families as C08 (nested object modified after being stored in a callee; helpers with several exits writing a parameter object's field) with probes; floors >= 80 / 2500 exact probes per family. Quick 150 programs (~2.4k probes), thorough ~4000 programs (~47k probes).",
  note="Trusted: CPython, the probe shim, the reader of the P3 tables. Python frontend only. Derived probes of an already reported variable are not reported again. Open known finding: via-callee-field-write:extra (a field overwritten inside a callee keeps its previous value in the caller).",
  design="DESIGN.md §C09"),
 "C05": dict(
  engine="runner",
  technique="differential runtime monitoring with a language-runtime oracle: generated scope/binding programs run under CPython and node (unique constants reveal which declaration each executed use read; symtable cross-checks) and through real lang+P1 runs; the symbol_id in semantic_p1/s2space_p1 is compared per occurrence with the declaration rows of the scope/file the runtime selected; metamorphic alpha-renaming relation on the P1 tables in 7 languages",
  category="exploration",
  text="G-bind programs (nested functions to depth 3, classes, shadowing at every level, parameters shadowing globals, global/nonlocal, declarations inside if/else/for/while/try/except blocks; JavaScript let/const/var in nested, loop, try and catch blocks, closures, hoisted functions, keyword-less writes; multi-file Python projects with plain, from, alias, wildcard, package __init__, relative, re-export and function-local imports). Every declaration carries a unique constant and every read is printed, so the runtime reveals per executed occurrence which declaration was bound; a read raising NameError/ReferenceError must be unresolved in lian. Second clause: renaming one declaration with exactly the occurrences bound to it must leave the P1 tables unchanged up to the name (twins validated by the runtime / javac / gcc / node); the only oracle for Java, Go, C, PHP, TypeScript templates. Quick: 100 Python + 50 JavaScript programs + 50 projects + 9 templates (>= 5600 occurrences); thorough 2600 + 1400 + 800.",
  note="Trusted: CPython/node outputs, symtable (must agree with the runtime — a disagreement is a harness fault), javac/gcc/node for twin validation. Comparison is at 'which scope's declaration' level (lian hoists one declaration per function). Occurrences explained by a listed open mechanism are removed one by one; the rest of each program is still judged. Multi-file JavaScript is not exercised (the frontend resolves no imports); Go/PHP twins are not toolchain-confirmed; catch parameters are not judged.",
  design="DESIGN.md §C05"),
 "C14": dict(
  engine="metamorphic",
  technique="relational run-pair monitor without oracle: complete `lian run` executions of one project with identical options in separate processes (one zygote per PYTHONHASHSEED forking one child per analysis); each child snapshots its artefact tree (SHA-256 of bytes + SHA-256 of decoded tables/JSON with location prefixes substituted); pairs are compared along exactly one dimension; true CLI runs cross-check the fork runner",
  category="exploration",
  text="Dimensions: hash seed {0, 1, 2, 12345, one fresh random value passed explicitly}, repetition (3 runs), process history (another project analysed first at the same -w with --force; pre-populated workspace + junk; stale ./lian_workspace in cwd/TMPDIR/HOME), workspace location (longer path; path already containing lian_workspace), input-file creation order (sorted / reversed / shuffled on a tmpfs). Same-path pairs are compared byte-wise over every file under frontend/, semantic_p1/, semantic_p2/, semantic_p3/, taint/ and the dot directories; different-path pairs decoded with the prefix substituted. Quick: 14 projects over all seven frontends, ~146 runs, ~119 run pairs, ~9.5k file pairs; thorough: ~100 projects, ~2020 runs, ~1840 run pairs, ~139k file pairs. Floors per dimension, >= 4 projects with non-empty taint/, all 7 frontends.",
  note="Trusted: SHA-256, pandas feather decoding, forkpool. Fork-vs-CLI equivalence is checked by 3 (10) true CLI runs; a disagreement is inconclusive. Only module_symbols and taint_data_flow.json embed locations; no artefact embeds a time or pid. The creation-order dimension needs a tmpfs (/dev/shm), otherwise it is skipped and stated. 'Schedules' = hash seed / process history: the target is single-threaded. Reuse of one interpreter for two analyses is out of scope (the statement says separate processes). A verbatim copy of src/ and default_settings/ taken at start keeps one invocation self-consistent.",
  design="DESIGN.md §C14"),
 "C13": dict(
  engine="workcount",
  technique="logical-work monitoring of complete real `lian run` executions over parameterised adversarial program families: recording wrappers plus sys.monitoring PY_START activation counters (frames, statement transfers, worklist pops, state-space / SFG / call-path sizes, constant-folding sizes), judged by committed polynomial envelopes, a growth-ratio test over n, a constant-folding size bound and a CPU-time watchdog with counter time series",
  category="exploration",
  text="34 families F(n) (recursion shapes, cyclic imports/objects, nested loops, 2^n / 3^n-path call graphs, n-way branches and value products, n fields/elements/aliases/parameters, inheritance chains, long flows, deep expressions, hostile constants; Python plus some JavaScript and Java), n swept (quick 3, 8-11 plus large sizes; thorough 1-16 plus large sizes), each with and without --enable-p2, full `run` with a parameter source and a call sink. Every deciding counter must stay below a*(n+1)^d (d <= 4, >= 10x head-room, committed constants), checked synchronously in the child, which the first crossing counter stops. No work counter may show three consecutive growth ratios >= 1.8 at n >= 8. No folded constant above 10^6 bits. No death by signal or resource exhaustion. A child at its CPU watchdog with growing counters is a violation; a watchdog without counter evidence is inconclusive. Floors: every deciding counter non-zero on >= 80% of the runs it applies to.",
  note="'Terminates on every program' is an unbounded liveness claim no finite run decides; it is restated as bounded logical work on the generated families and says nothing about shapes outside them. Wall-clock time never decides. Envelopes were calibrated on the repaired tree (fix commits f017db7, 1686ffb, 2aa9ebd). Exceptions other than resource exhaustion are recorded, not judged (C03). A family whose file the frontend skips contributes no counters.",
  design="DESIGN.md §C13, §3.2 item 4"),
 "C15": dict(
  engine="model-history",
  technique="runtime reference-model monitor (dict id -> last saved content, canonical forms computed from the objects) over exhaustively enumerated and seeded random save/get/export/export_indexing/restore histories on the real Loader, with an independent pandas reader of index and bundle files and a fresh-loader restore after every history; write-fault injection; save recorder, icontract post-conditions on LRUCache/GeneralLoader and a default-vs-tight-configuration pair oracle inside real analyses",
  category="exploration",
  text="For each of 17 loader classes (33 instances): all id-symmetry-reduced histories of <= 3 operations (<= 4 thorough) over ids {1,2,3} x contents {A, B, empty} under 1-3 cache/bundle configurations, <= 4 (<= 5) on four representative families, plus random histories of 6-24 operations over the 36-point grid (item cache 1..3 x bundle cache 1..2 x MAX_ROWS 3..8); 32 in-memory map loaders through save/export/restore histories; one injected write fault (to_feather raising ENOSPC, or a directory at the target path) per write of two histories per class — a failure must reach the caller or be printed; 9 (49 thorough) real analyses (Python, JavaScript, Java; run/semantic; with/without --enable-p2) in which every saved item is compared between what save received, the live loader, a fresh restored loader and the files, and the same analysis under default and tight cache/bundle configuration must compute the same final contents. Exhaustive inside the bounds.",
  note="Trusted: the canonical forms and content builders in lib/monitors/loader.py, pandas as independent reader, icontract. Numbers are compared by Python equality, missing cells None == NaN, State.value as text, reverse look-ups of map loaders not judged. Tight real runs keep SFG bundles in memory (compensation of the known SFG write failure; one run per tier uncompensated).",
  design="DESIGN.md §C15"),
 "C03": dict(
  engine="runner",
  technique="structural checker I1-I6 over the GIR bundles read back after real `lang` runs on corpus, hand-written and seeded byte-mutated sources in 10 languages; per-file exception attribution by a wrapper around the per-file translation entry, confirmed by unwrapped forked runs and true CLI runs",
  category="exploration",
  text="Real `lian lang` runs over projects of 70-110 files (corpora under tests/, 26 hand-written valid programs, byte-level mutants of both with 1-8 delete/insert/transpose/truncate/duplicate/splice edits; single- and multi-language; nested directories; one multi-bundle project in thorough). The bundle is read back and judged: I1 unique ids, I2 disjoint unit ranges, I3 marker pairing/nesting, I4 parent = innermost open block, I5 body-valued attributes name owned blocks and no block is orphaned, I6 executable rows only inside methods/class initialisers, one %unit_init per unit in source order, nothing lost between flatten and bundle. Exceptions are recorded per file and each crash signature is re-observed unwrapped (and by the true CLI for the first 6/40). Quick ~3.2k files / 136k rows, thorough ~43k files / 7-8M rows. Floors on rows, blocks, parent links, attributes, order comparisons, mutants that still emit GIR, CLI cross-checks.",
  note="Says nothing about inputs outside corpora + hand-written programs + the mutator space. --strict-parse-mode, cpp and csharp (empty grammar files) are excluded. A SystemExit with a diagnostic is a handled exit. The invariants are stated as the healthy tree realises them (owner of a block = the statement row preceding it at the same level; derived body-valued columns; class-initialiser blocks named by init/static_init). lian's 1000-unit cap bounds project size.",
  design="DESIGN.md §C03"),
 "C02": dict(
  engine="girvm",
  technique="differential execution across frontends: one core program rendered into 7 languages, each rendering lowered by a real `lang` run and executed by the reference GIR executor under one common semantics, compared with the core reference interpreter; renderers validated at run time by CPython, node, javac/java and gcc; attribution by named compensation switches",
  category="exploration",
  text="G-core programs (ints, strings, locals, + - *, comparisons, and/or, if/else, while, counted for, break/continue, functions, calls, return, a record type, int arrays) are rendered for Python, JavaScript, TypeScript, Java, Go, C and PHP; every rendering is lowered by the real language phase and the emitted GIR is executed by girvm, which knows only the documented instruction vocabulary (an unknown operation/column is opaque, never guessed). Outputs must equal the reference interpreter's. A failing case is re-executed with all compensation switches (each emulating one repaired lowering), the needed set is minimised, every switch is reported under its own signature and the case must then pass completely; anything else is an unexplained violation. The evidence lists the vocabulary each frontend emitted and how many renderings a real runtime validated. 90 programs x 7 languages quick, 1500 x 7 thorough.",
  note="Trusted: the core reference interpreter (validated per program by CPython/node/java/gcc through the renderers); Go and PHP renderings cannot be validated by a runtime offline and are trusted as syntax-directed; girvm's reading of the documentation. Language-dependent in the executor: operators, literal spellings, entry/output conventions (DESIGN Appendix B), function-level hoisting for Python/PHP.",
  design="DESIGN.md §C02, Appendix A/B"),
 "C18": dict(
  engine="fs-monitor",
  technique="filesystem monitoring of real runs: before/after inventory (kind, size, SHA-256, link target, mode) of a canary-filled scratch tree, sys.addaudithook log of every mutating Python-level operation resolved to real paths, and strace -f of true CLI runs, over an enumerated space of workspace/input path configurations",
  category="exploration",
  text="Real `lian lang` runs (forked child, ~0.2 s) over 5 placements x 5 workspace namings x 7 addressings (absolute, relative after chdir, through symlinked parents, workspace is a symlink, link/../name, symlinked inputs) x 3 input kinds x 4 old-workspace contents x force on/off = 3328 configurations (thorough: all, exhaustive; quick: seeded covering sample of ~400) plus -inc / -f -inc / C pre-processing / strict-parse families and strace'd CLI runs (6 quick, 36 thorough) with a zygote-honesty comparison. Clauses: nothing outside realpath(workspace) changes; no mutating audit/strace event outside it; nothing pre-existing is deleted without --force; bounded number/volume of copied files and no death in the copy step. Floors on audit operations, snapshot entries, copies and strace runs.",
  note="Scope: the `lang` sub-command (later phases write through the same Loader rooted at the workspace). The workspace is the documented -w rule evaluated on real paths; creating the workspace's missing ancestor directories is allowed; allow-list /dev, /proc, scratch HOME/MPLCONFIGDIR (matplotlib font cache). An input inside a forced workspace is counted, not asserted for clause (a). Native/child-process writes outside the scratch root are visible only to the strace runs.",
  design="DESIGN.md §C18"),
 "C06": dict(
  engine="girvm",
  technique="recording wrapper on analyze_reachable_symbols (union over all visits of the in-sets, per analysis frame) judged against dynamic last-definition events of validated executions and against a textbook reaching-definitions solver run on lian's own CFG and definition sets",
  category="exploration",
  text="Intraprocedural def/use skeletons (3 variables; every nesting of if/else, while, counted for, for-in, do-while, break, continue, early return; Python, JavaScript, TypeScript, PHP and Go; a third of the batches with --enable-p2) are analysed by real `semantic` runs while a wrapper records, per statement, the (symbol, defining statement) pairs of in_symbol_bits over all visits and the symbols the statement defines. Soundness: every use event of the reference executor (execution validated against CPython/node; loops taken 0 or 1 times; all decision vectors up to 32) must find its last definition in the recorded set. Precision: the recorded set must lie inside the may-reach solution of a 20-line worklist solver on lian's CFG/def sets, and equal it on loop-free methods. Floors: >=5000 recorded visits, >=3000 use events, >=100 statements visited more than once.",
  note="Trusted: the reference executor's def/use events (validated per input against CPython / node outputs; PHP and Go: node on the JavaScript twin of the same skeleton), the textbook solver. Per-language floors (>= 500 validated executions, >= 800 use events). The observed object is the union over visits (the symbol graph accumulates edges the same way); CFG and def-use extraction faults belong to C04/C05. Loop headers are may-definitions of the loop variable.",
  design="DESIGN.md §C06"),
 "C04": dict(
  engine="girvm",
  technique="trace-containment monitor: per-activation statement traces of the reference executor, validated per input against a real engine (CPython; node for JavaScript and, same text, TypeScript; javac+java; gcc; for PHP and Go, which have no runtime here, node on the JavaScript rendering of the same skeleton with the same decision vector), checked against the CFG lian stores in semantic_p1/cfg.bundle*, over systematically enumerated and random control-flow skeletons x enumerated decision vectors, in seven frontends",
  category="exploration",
  text="Control-flow skeletons (every outer x inner construct nesting in 4 positions with/without trailing statement, plus seeded random skeletons to depth 3, 4 in thorough) are rendered for Python, JavaScript, TypeScript, Java, C, PHP and Go (per language only the constructs it can express with the meaning of the JavaScript rendering), analysed by real lang+P1 runs and executed on exhaustively enumerated decision vectors (<=48 per skeleton, sampled beyond; loops 0/1/2 iterations; raise/throw under a decision). Every consecutive statement pair of every activation must be a CFG edge, the first statement an entry node, every normal completion must reach the exit node, CFG nodes must belong to the method, continue must be wired inside its loop. An execution is used only if CPython / node / java / the gcc-built binary agree with the executor on that input. A wrapper counts which ControlFlowAnalysis handlers ran (a required set missing => inconclusive). Known unmodelled transfers are re-judged edge by edge, never exempting the rest of the trace.",
  note="Trusted: CPython/node/java/gcc as ground truth for which simple statements execute; girvm's mapping of executions to GIR statement ids (loop headers appear at each test; only the selected case label of a switch is traced). Seven of eleven frontends (csharp cannot load here: empty csharp.so; ruby's GIR is outside the executor's vocabulary; llvm and smali have no structured source to render). PHP and Go ground truth is indirect (the JavaScript twin): trusted that the renderers of lib/gen_cf.py preserve meaning construct by construct. A failing pair is attributed to a tagged transfer, to a block column or operation the CFG builder does not read (cfg-does-not-read:<op>.<col>), else to the shape of the missing node or edge; per-language floors on programs, validated executions and activations. Exceptions only from explicit raise/throw; a statement followed by itself needs no self edge; class member declarations may lie between a class declaration and its successor.",
  design="DESIGN.md §C04"),
 "C01": dict(
  engine="girvm",
  technique="differential execution: the GIR emitted by real `lang` runs is executed by a reference GIR executor and compared with CPython running the source, over grammar-generated programs and argument vectors; PY_START coverage monitor on the frontend",
  category="exploration",
  text="Programs from a type-directed grammar over exactly the quantifier's constructs (62 tracked features) are lowered in batches by the real language phase; the flattened GIR read back from frontend/gir.bundle* is executed by girvm for 3 argument vectors and must reproduce CPython's out(...) sequence and return value. A sys.monitoring coverage monitor lists which frontend handlers the workload reached (a required set missing => inconclusive). Failing cases are attributed to a mechanism by compensation (VM switch or CPython-equivalent source rewrite) and re-judged with it, so a different defect in the same program is still reported. Held on 800 (quick) / 8000 (thorough) programs; says nothing about constructs outside the grammar.",
  note="Trusted: CPython 3.12 as ground truth; girvm's reading of the GIR documentation (its agreement with CPython on all passing programs is the evidence for it). Boolean operands are side-effect free because GIR evaluates and/or eagerly (workload restriction). Containers are observed element-wise, never printed whole.",
  design="DESIGN.md §C01, §3.4, Appendix A"),
 "C19": dict(
  engine="model-history",
  technique="runtime reference-model monitor over exhaustively enumerated and random operation histories on the real PathManager, plus the same monitor on the live store inside real P3 runs",
  category="exploration",
  text="Every add/remove/exists on the real PathManager is shadowed by a prefix-free-set model; return values, the stored set, the trie's own set and the trie's reachable terminal nodes are compared after every operation. The history space is explored exhaustively with state de-duplication up to the stated bounds (complete closure for the 2-site alphabet), then by seeded random 60-operation histories, then on the store of real pipeline runs. Assurance: held on every history explored; not a proof beyond the bounds.",
  note="Trusted: the 20-line model in lib/monitors/pathstore.py is the statement of the property; CallSite/CallPath are the repo's real classes. Bounds: alphabet of 2-3 call sites (+1 invalid), path length <= 3 (4 in thorough), BFS depth 4-6 quick / 5-16 thorough.",
  design="DESIGN.md §C19"),
 "C17": dict(
  engine="model-history",
  technique="online trace monitor on register/notify of the real EventManager (shadow registration table + per-handler entry/exit log) plus an independent direct model, over exhaustively enumerated registration tables and inside real runs with the default table",
  category="exploration",
  text="All registration tables of <=3 handlers over {6 language-set forms} x {7 return values incl. None} x {replaces out_data or not}, and of 4 handlers (5 in thorough) over a reduced option set, are built on the real EventManager; the event is raised after every registration for the matching and a non-matching language, with a decoy handler on another event kind and an unknown event kind. Observed call sequence, in_data identity seen by each handler, stop point and returned flag word are compared with the rule. The same monitor judges every notify of real runs of seven frontends (default registration table). Exhaustive inside the bounds; held-on-observed beyond.",
  note="Trusted: the rule as restated in lib/monitors/events.py and checks/c17.py (a non-zero return counts as processed and sets SUCCESS, as event_return.py defines; for a None return only order/stop/flags are asserted). Handlers raising exceptions are not exercised.",
  design="DESIGN.md §C17"),
 "C16": dict(
  engine="model-history",
  technique="post-condition monitor on every DataModel query (comparison with a naive scan of the live frame) over enumerated and random mutator/query interleavings, and on the real query methods inside real pipeline runs",
  category="exploration",
  text="Mutator sequences (element/row/column modification, append, row removal, rename, index reset, slice) are enumerated exhaustively to depth 2 over the full alphabet with every query subset in between (warm/cold/partly warm caches) and depth 3 over a reduced alphabet (3 and 4 in thorough), on three initial tables with duplicates, missing values and non-default labels, plus seeded random sequences; after each step up to ~150 query calls (all public query methods) are compared with a list-of-dicts scan of the current frame, including validity of returned positions. The same post-conditions are attached to the real methods during real runs of three frontends.",
  note="Trusted: pandas itself and the scan in lib/monitors/datamodel.py. '' is 'missing' by the table's own convention. Aliased DataModel wrappers over one frame and Row.__setattr__ write-back are outside the property and not generated.",
  design="DESIGN.md §C16"),
}

PENDING_REASON = "check not built yet in this round (planned in DESIGN.md §4); no claim is made for it"

def main():
    checks = []
    for pid in ALL:
        c = CHECKS.get(pid)
        if not c:
            continue
        checks.append({
            "property_id": pid,
            "quick_cmd": f"./check {pid} --tier quick",
            "thorough_cmd": f"./check {pid} --tier thorough",
            "evidence_file": f"evidence/{pid}.json",
            "replay_cmd_template": f"./check {pid} --replay {{path}}",
            "engine": c["engine"],
            "level_claimed": {"category": c["category"], "text": c["text"], "design_ref": c["design"]},
            "level_note": c["note"],
            "technique": c["technique"],
        })
    engines = {}
    for pid, c in CHECKS.items():
        engines.setdefault(c["engine"], []).append(pid)
    ENGINE_INFO = {
        "model-history": ("lib/monitors", "reference-model monitors shadowing the real data-structure classes over enumerated/random histories and inside real runs"),
        "runner": ("lib/forkpool.py", "zygote + fork-per-analysis runner of the real lian pipeline with recording wrappers"),
        "girvm": ("lib/girvm.py", "reference executor for emitted GIR, compared with CPython/node/java/gcc executions"),
        "fs-monitor": ("lib/monitors/fs.py", "filesystem snapshot diff + audit hook + strace around real runs"),
        "metamorphic": ("lib", "relations between pairs/families of real runs"),
        "workcount": ("lib/monitors/workcount.py", "logical-work counters from recording wrappers"),
    }
    m = {
        "version": 1,
        "setup_cmd": "./setup.sh",
        "hooks": {
            "guard": "LIAN_VERIF",
            "enable": "checks import lian from /repo/src with LIAN_VERIF=1 in the environment; all monitors are installed from /verif by assigning to class/module attributes before any lian object is built, so no source hook exists in /repo",
            "baseline_off_cmd": "cd /repo && /venv/bin/python -m pytest -ra -q -p no:cacheprovider --timeout=900 --continue-on-collection-errors",
            "source_commits": [],
            "add_only": True,
        },
        "engines": [{"name": n, "path": ENGINE_INFO[n][0], "serves_properties": sorted(p), "kind_free_text": ENGINE_INFO[n][1]} for n, p in sorted(engines.items())],
        "checks": checks,
        "notes": "Technique family: runtime monitoring. Exit codes: 0 held on everything observed, 1 violation (VIOLATION line + replay file), 3 inconclusive (a deciding monitor observed too little, or a watchdog fired). Known findings: known_findings.json.",
        "not_applicable": [{"property_id": p, "reason": PENDING_REASON} for p in ALL if p not in CHECKS],
    }
    with open(os.path.join(HERE, "MANIFEST.json"), "w") as f:
        json.dump(m, f, indent=1)
    print("checks:", len(checks), "not_applicable:", len(m["not_applicable"]))

if __name__ == "__main__":
    main()
